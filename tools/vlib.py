"""Driver library for the /verif checks: build (Go harness, translator, Coq), run engines,
evaluate case files inside Coq, parse Print Assumptions, decide the verdict, write evidence."""
import fcntl, glob, hashlib, json, os, re, shutil, subprocess, sys, time
from concurrent.futures import ThreadPoolExecutor

VERIF = os.path.dirname(os.path.dirname(os.path.abspath(__file__)))
REPO = os.environ.get("VERIF_REPO", "/repo")
BUILD = os.path.join(VERIF, ".build")
COQ = os.path.join(VERIF, "coq")
HARNESS = os.path.join(VERIF, "harness")
ZZV_CMD = os.environ.get("VERIF_ZZV_CMD", "zzv")
ZZV = os.path.join(BUILD, ZZV_CMD)
GOENV = dict(os.environ, GOFLAGS="-mod=mod", GOPROXY="off")
GOENV.pop("GOTOOLCHAIN", None)  # 'local' breaks the switch to the cached go1.25.0 toolchain
GOENV.pop("GOSUMDB", None)
GATE_RE = re.compile(r"\b(Admitted|admit|Axiom|Axioms|Parameter|Parameters|Conjecture|Hypothesis|Variable|Variables|Hypotheses)\b|Unset Guard|bypass_check|type-in-type|impredicative-set|Admit Obligations")

def sh(cmd, timeout=1200, cwd=None, env=None):
    try:
        p = subprocess.run(cmd, shell=isinstance(cmd, str), cwd=cwd, env=env, timeout=timeout,
                           stdout=subprocess.PIPE, stderr=subprocess.STDOUT, text=True, errors="replace")
        return p.returncode, p.stdout
    except subprocess.TimeoutExpired as e:
        out = e.stdout if isinstance(e.stdout, str) else (e.stdout or b"").decode(errors="replace")
        return 124, out + "\n[timeout after %ss]" % timeout

class Lock:
    def __init__(self, name):
        os.makedirs(BUILD, exist_ok=True)
        self.path = os.path.join(BUILD, name + ".lock")
    def __enter__(self):
        self.f = open(self.path, "w")
        fcntl.flock(self.f, fcntl.LOCK_EX)
    def __exit__(self, *a):
        fcntl.flock(self.f, fcntl.LOCK_UN)
        self.f.close()

def coq_files():
    fs = []
    for d in ("Base", "Model", "Proofs", "Props", "Gen", "Corr"):
        fs += sorted(glob.glob(os.path.join(COQ, d, "*.v")))
    return [os.path.relpath(f, COQ) for f in fs]

def build_go():
    """(Re)build the harness binary against /repo's current working tree with hooks enabled."""
    with Lock("go"):
        shutil.copyfile(os.path.join(REPO, "go.sum"), os.path.join(HARNESS, "go.sum"))
        rc, out = sh(["go", "build", "-tags", "verif conn_insecure", "-o", ZZV, "./cmd/" + ZZV_CMD],
                     timeout=1500, cwd=HARNESS, env=GOENV)
    return rc == 0, out

def run_extract():
    with Lock("gen"):
        rc, out = sh([ZZV, "extract", "-repo", REPO, "-out", os.path.join(COQ, "Gen")], timeout=300)
    return rc == 0, out

def coq_makefile():
    files = coq_files()
    stamp = os.path.join(BUILD, "coqfiles.txt")
    cur = "\n".join(files)
    old = open(stamp).read() if os.path.exists(stamp) else None
    if old != cur or not os.path.exists(os.path.join(COQ, "Makefile")):
        rc, out = sh(["coq_makefile", "-f", "_CoqProject"] + files + ["-o", "Makefile"], cwd=COQ)
        if rc != 0:
            return False, out
        open(stamp, "w").write(cur)
    return True, ""

def coq_make(targets, timeout=3000, clean=False, keep_going=False):
    """make the given .vo targets (and only what they depend on)."""
    with Lock("coq"):
        ok, out = coq_makefile()
        if not ok:
            return False, out
        if clean:
            sh(["make", "clean"], cwd=COQ)
        rc, out = sh(["make", "-j16"] + (["-k"] if keep_going else []) + targets, timeout=timeout, cwd=COQ)
    return rc == 0, out

def coqc_capture(relfile, timeout=900):
    """compile one file of the project again, capturing what it prints."""
    with Lock("coq"):
        rc, out = sh(["coqc", "-R", ".", "DV", "-w", "-notation-overridden,-deprecated-hint-without-locality,-deprecated-instance-without-locality", relfile], timeout=timeout, cwd=COQ)
    return rc == 0, out

def parse_assumptions(src, out):
    """Pair each 'Print Assumptions X.' of the source with the block coqc printed for it."""
    names = re.findall(r"Print Assumptions\s+([A-Za-z0-9_'.]+)\s*\.", src)
    blocks, cur = [], None
    for line in out.splitlines():
        if line.startswith("Closed under the global context"):
            blocks.append([]); cur = None
        elif line.startswith("Axioms:"):
            cur = []; blocks.append(cur)
        elif cur is not None:
            m = re.match(r"^([A-Za-z_][A-Za-z0-9_'.]*)\s*(:|$)", line)
            if m and not line.startswith(" "):
                cur.append(m.group(1))
            elif not line.startswith(" ") and line.strip():
                cur = None
    res = {}
    for i, n in enumerate(names):
        res[n] = blocks[i] if i < len(blocks) else None
    return res

def theorem_names(src):
    return re.findall(r"^\s*(?:Theorem|Lemma|Example|Corollary)\s+([A-Za-z0-9_']+)", src, re.M)

def gate_scan():
    """grep gate over the whole development (comments stripped)."""
    hits = []
    for rel in coq_files():
        if rel.startswith("Gen/"):
            pass
        txt = open(os.path.join(COQ, rel)).read()
        txt = strip_comments(txt)
        for i, line in enumerate(txt.splitlines(), 1):
            m = GATE_RE.search(line)
            if m:
                # Variable/Hypothesis are allowed inside a Section only
                if m.group(1) in ("Variable", "Variables", "Hypothesis", "Hypotheses") and in_section(txt, i):
                    continue
                hits.append("%s:%d: %s" % (rel, i, line.strip()))
    return hits

def strip_comments(txt):
    out, depth, i, n = [], 0, 0, len(txt)
    while i < n:
        if txt.startswith("(*", i):
            depth += 1; i += 2
        elif txt.startswith("*)", i) and depth > 0:
            depth -= 1; i += 2
        else:
            if depth == 0:
                out.append(txt[i])
            elif txt[i] == "\n":
                out.append("\n")
            i += 1
    return "".join(out)

def in_section(txt, lineno):
    depth = 0
    for i, line in enumerate(txt.splitlines(), 1):
        if i >= lineno:
            break
        if re.match(r"^\s*Section\s+\w+", line):
            depth += 1
        elif re.match(r"^\s*End\s+\w+", line) and depth > 0:
            depth -= 1
    return depth > 0

def eval_case_file(args):
    d, f = args
    rc, out = sh(["coqc", "-R", COQ, "DV", "-Q", d, "Cases", f], timeout=1500, cwd=d)
    if rc != 0:
        return f, None, out[-2000:]
    m = re.search(r"M\s*=\s*(\[[^\]]*\])", out, re.S)
    if not m:
        return f, None, out[-2000:]
    idx = [int(x) for x in re.findall(r"-?\d+", m.group(1))]
    return f, idx, ""

def eval_cases(d, files, jobs=16):
    with ThreadPoolExecutor(max_workers=jobs) as ex:
        return list(ex.map(eval_case_file, [(d, f) for f in files]))

def thorough_extras(c, cfg):
    """thorough tier: re-check the property's compiled theorems and everything they depend on
    with the independent checker coqchk and compare the axioms it reports with the whitelist."""
    mod = "DV." + cfg["props"][:-2].replace("/", ".")
    with Lock("coq"):
        rc, out = sh(["coqchk", "-silent", "-o", "-R", ".", "DV", mod], timeout=5400, cwd=COQ)
    axioms = []
    m = re.search(r"\* Axioms:(.*?)\n\s*\n\* Constants", out, re.S)
    if m:
        axioms = [a.strip() for a in m.group(1).splitlines() if a.strip() and a.strip() != "<none>"]
    allowed = set(cfg.get("axioms", []))
    short = lambda a: a.replace("Coq.Reals.", "").replace("Coq.Logic.", "")
    bad = [a for a in axioms if short(a) not in allowed and a not in allowed]
    unsafe = re.findall(r"relying on (?:type-in-type|unsafe \(co\)fixpoints): (?!<none>)(.*)", out) + \
             re.findall(r"positivity is assumed: (?!<none>)(.*)", out)
    ok = rc == 0 and not bad and not unsafe
    c.oblige("P: coqchk -silent -o %s (independent re-check of the .vo files; axioms: %s)" % (mod, ", ".join(axioms) or "none"),
             ok, out[-1500:] if not ok else "")
    if not ok:
        c.breaks.append({"kind": "P", "name": "coqchk " + mod, "detail": out[-3000:]})
    c.cov["coqchk_axioms"] = axioms


def known_findings():
    path = os.path.join(VERIF, "known_findings.txt")
    res = []
    if os.path.exists(path):
        for line in open(path):
            line = line.strip()
            m = re.match(r"^finding:\s+property=(\S+)\s+class=(\S+)\s+(.*)$", line)
            if m:
                res.append({"property": m.group(1), "class": m.group(2), "text": m.group(3)})
    return res

def tree_id():
    rc, head = sh(["git", "-C", REPO, "rev-parse", "HEAD"])
    rc, diff = sh(["git", "-C", REPO, "diff", "HEAD"])
    return head.strip()[:12] + "+" + hashlib.sha1(diff.encode()).hexdigest()[:8]

class Check:
    """One run of one property's check."""
    def __init__(self, pid, tier, seed):
        self.pid, self.tier, self.seed = pid, tier, seed
        self.t0 = time.time()
        self.obligations = []     # (name, ok, detail)
        self.breaks = []          # P/K/T breaks: dict(kind,name,detail,case)
        self.monitor = []         # M failures not covered by known findings
        self.known_hit = []       # known findings replayed
        self.cov = {"evaluations": 0, "distinct_nontrivial": 0, "rule": "", "samples": [], "distribution": {}}
        self.assumptions = []
        self.trusted = []
        self.axioms = {}
        self.out = os.path.join(BUILD, "cases", pid)
        self.notes = []

    def oblige(self, name, ok, detail=""):
        self.obligations.append((name, bool(ok), detail))

    # ---- shared build ----
    def build(self):
        ok, out = build_go()
        self.oblige("T/K: harness builds against the working tree (tags verif conn_insecure)", ok, out[-1500:] if not ok else "")
        if not ok:
            self.breaks.append({"kind": "K", "name": "harness-build", "detail": out[-3000:]})
            return False
        ok, out = run_extract()
        self.oblige("T: translator regenerates coq/Gen from the working tree", ok, out[-1500:] if not ok else "")
        if not ok:
            self.breaks.append({"kind": "T", "name": "translator", "detail": out[-3000:]})
        return True

    # ---- P: proofs ----
    def proofs(self, props_rel, extra_targets=(), allowed_axioms=()):
        targets = [props_rel[:-2] + ".vo"] + [t[:-2] + ".vo" for t in extra_targets]
        ok, out = coq_make(targets, clean=False)
        src = open(os.path.join(COQ, props_rel)).read()
        thms = theorem_names(src)
        if not ok:
            m = re.search(r'File "([^"]+)", line (\d+)', out)
            where = "%s:%s" % (m.group(1), m.group(2)) if m else "?"
            failing = self._failing_theorem(where) if m else None
            self.breaks.append({"kind": "P", "name": failing or where, "detail": out[-3000:]})
            for t in thms:
                self.oblige("P: theorem %s" % t, False, "project does not compile: %s" % where)
            return False
        ok2, out2 = coqc_capture(props_rel)
        ass = parse_assumptions(src, out2)
        self.axioms = ass
        for t in thms:
            a = ass.get(t)
            bad = [x for x in (a or []) if x not in allowed_axioms]
            if t in ass and a is None:
                self.oblige("P: theorem %s" % t, False, "no Print Assumptions output")
                self.breaks.append({"kind": "P", "name": t, "detail": "Print Assumptions output missing"})
            elif bad:
                self.oblige("P: theorem %s" % t, False, "axioms outside the whitelist: %s" % bad)
                self.breaks.append({"kind": "P", "name": t, "detail": "axioms outside whitelist: %s" % bad})
            else:
                self.oblige("P: theorem %s (kernel-checked; axioms: %s)" % (t, ", ".join(a) if a else "none"), True)
        hits = gate_scan()
        self.oblige("P: grep gate (no Admitted/admit/Axiom/Parameter/Conjecture/guard switches, no Variable outside a Section)", not hits, "; ".join(hits[:5]))
        if hits:
            self.breaks.append({"kind": "P", "name": "grep-gate", "detail": "\n".join(hits)})
        return True

    def _failing_theorem(self, where):
        try:
            f, ln = where.rsplit(":", 1)
            f = f[2:] if f.startswith("./") else f
            lines = open(os.path.join(COQ, f)).read().splitlines()[: int(ln)]
            for line in reversed(lines):
                m = re.match(r"^\s*(?:Theorem|Lemma|Example|Corollary|Definition|Fixpoint)\s+([A-Za-z0-9_']+)", line)
                if m:
                    return "%s (%s)" % (m.group(1), where)
        except Exception:
            pass
        return where

    # ---- K + M: engines ----
    def engine(self, name, extra_args=(), timeout=1500, corr_name=None):
        """Run an engine; a correspondence mismatch or monitor failure is confirmed by identical reruns.

        The engines drive the real (concurrent) code and wait for quiescence; on a heavily loaded
        machine a wait can expire and produce a spurious disagreement.  Every engine is a
        deterministic function of its seed as far as the harness is concerned, so a genuine
        violation shows again when the same seed is run again: a failure is reported when it shows
        in the first run AND in at least one of two identical reruns.  A dead engine process
        (panic / fatal error in the real code) is never retried: it is reported at once."""
        import copy
        keys = ("obligations", "breaks", "monitor", "known_hit", "cov")
        snap = {k: copy.deepcopy(getattr(self, k)) for k in keys}
        rep = self._engine_once(name, extra_args, timeout, corr_name)
        def failed():
            nb = self.breaks[len(snap["breaks"]):]
            nm = self.monitor[len(snap["monitor"]):]
            died = any(b["name"].startswith("engine-") for b in nb)
            return (bool(nb) or bool(nm)), died
        bad, died = failed()
        if not bad or died or os.environ.get("VERIF_NO_RERUN"):
            return rep
        first = {"breaks": [b["name"] for b in self.breaks[len(snap["breaks"]):]],
                 "monitor": sorted({m["class"] for m in self.monitor[len(snap["monitor"]):]})}
        for attempt in (1, 2):
            for k in keys:
                setattr(self, k, copy.deepcopy(snap[k]))
            rep = self._engine_once(name, extra_args, timeout, corr_name)
            bad, died = failed()
            if bad:
                self.cov.setdefault("reruns", []).append({"engine": name, "first_run": first, "confirmed_on_rerun": attempt})
                return rep
        self.cov.setdefault("reruns", []).append({"engine": name, "first_run": first, "confirmed_on_rerun": None,
                                                  "note": "not reproduced by two identical reruns (same seed): scheduling noise, not counted"})
        print("NOTE property=%s engine=%s: a disagreement of the first run (%s) was not reproduced by two identical reruns; not counted" % (self.pid, name, json.dumps(first)))
        return rep

    def _run_zzv(self, name, extra_args, timeout):
        for f in glob.glob(os.path.join(self.out, "cases_%s_*" % name)) + glob.glob(os.path.join(self.out, "%s.json" % name)):
            os.remove(f)
        return sh([ZZV, name, "-out", self.out, "-seed", str(self.seed), "-tier", self.tier, "-repo", REPO] + list(extra_args), timeout=(timeout * 2 if self.tier == "thorough" else timeout))

    def prefetch(self, engines, timeout=1500):
        """Start the first run of every engine of the property at once (they are separate processes
        writing disjoint files and spend most of their time waiting for the real code to settle);
        engine() then picks the result up. Confirmation reruns are run one at a time."""
        import threading
        os.makedirs(self.out, exist_ok=True)
        for f in glob.glob(os.path.join(self.out, "*.vo")) + glob.glob(os.path.join(self.out, "*.glob")) + glob.glob(os.path.join(self.out, ".*.aux")):
            os.remove(f)
        self._pre = {}
        if os.environ.get("VERIF_SEQUENTIAL_ENGINES") or len(engines) < 2:
            return
        def work(name, args):
            self._pre[name] = self._run_zzv(name, args, timeout)
        ths = [threading.Thread(target=work, args=(n, a)) for n, a in engines]
        for t in ths:
            t.start()
        for t in ths:
            t.join()

    def _engine_once(self, name, extra_args=(), timeout=1500, corr_name=None):
        os.makedirs(self.out, exist_ok=True)
        pre = getattr(self, "_pre", {}).pop(name, None)
        if pre is not None:
            rc, out = pre
        else:
            for f in glob.glob(os.path.join(self.out, "*.vo")) + glob.glob(os.path.join(self.out, "*.glob")) + glob.glob(os.path.join(self.out, ".*.aux")):
                os.remove(f)
            rc, out = self._run_zzv(name, extra_args, timeout)
        label = corr_name or ("K: correspondence %s (model vs implementation on the same inputs)" % name)
        if rc != 0:
            self.oblige(label, False, out[-1500:])
            self.breaks.append({"kind": "K", "name": "engine-" + name, "detail": "engine failed rc=%s\n%s" % (rc, out[-3000:])})
            if re.search(r"^(fatal error:|panic:|unexpected signal|SIGSEGV)", out, re.M):
                # the engine runs the real code in-process: a Go fatal error / unrecovered panic under the
                # engine's inputs is itself the failing observation (the process did not survive)
                m = re.search(r"^(fatal error:.*|panic:.*|unexpected signal.*)$", out, re.M)
                self.monitor.append({"class": "process-died", "what": "the process running the real code died under the engine's inputs: " + (m.group(1) if m else ""),
                                     "input": {"engine": name, "seed": self.seed, "tier": self.tier, "output_tail": out[-2500:]}})
            return None
        rep = json.load(open(os.path.join(self.out, name + ".json")))
        self.cov["evaluations"] += rep["evaluations"]
        self.cov["distinct_nontrivial"] += rep["distinct_nontrivial"]
        self.cov["rule"] += ("[%s] " % name) + rep.get("rule", "") + " "
        self.cov["samples"] += (rep.get("samples") or [])[:6]
        self.cov["distribution"][name] = rep.get("distribution", {})
        if rep.get("extra"):
            self.cov.setdefault("extra", {})[name] = rep["extra"]
        if rep.get("exhaustive"):
            self.cov["exhaustive_part"] = True
        # K: evaluate the model on the same cases inside Coq
        res = eval_cases(self.out, (rep.get("case_files") or []))
        bad = []
        for f, idx, err in res:
            if idx is None:
                bad.append({"file": f, "error": err})
            elif idx:
                descr = (rep.get("case_index") or {}).get(f, [])
                for i in idx[:10]:
                    bad.append({"file": f, "index": i, "case": descr[i] if i < len(descr) else None})
        ncases = sum(len(v) for v in (rep.get("case_index") or {}).values())
        self.oblige(label + " [%d cases, %d files]" % (ncases, len((rep.get("case_files") or []))), not bad,
                    json.dumps(bad[:3])[:1500] if bad else "")
        if bad:
            self.breaks.append({"kind": "K", "name": "correspondence-" + name, "detail": "model and implementation disagree", "cases": bad[:10]})
        # M: monitor failures
        allk = known_findings()
        kf = [k for k in allk if k["property"] == self.pid]
        kclasses = {k["class"]: k for k in kf}
        # a shared engine replays the witnesses of every property it serves: a class listed as a
        # known finding of ANOTHER property is that property's business, not a new violation here
        foreign = {k["class"] for k in allk if k["property"] != self.pid} - set(kclasses)
        seen = set()
        import re as _re
        mine = []
        for mf in (rep.get("monitor_failures") or []):
            m = _re.match(r"^(C\d\d)-", mf["class"])
            if m and m.group(1) != self.pid:
                continue  # a shared engine also evaluates the monitors of its other properties
            if mf["class"] in foreign:
                continue
            mine.append(mf)
        for mf in mine:
            if mf["class"] in kclasses:
                if mf["class"] not in seen:
                    seen.add(mf["class"])
                    self.known_hit.append((kclasses[mf["class"]], mf))
            else:
                self.monitor.append(mf)
        self.oblige("M: property monitor on implementation outputs (%s)" % name,
                    not [m for m in mine if m["class"] not in kclasses],
                    "")
        return rep

    # ---- verdict ----
    def finish(self, level_assumptions, trusted_base, checker_cmd):
        wall = time.time() - self.t0
        nob = len(self.obligations)
        ndis = sum(1 for o in self.obligations if o[1])
        viol = bool(self.breaks or self.monitor)
        cov = dict(self.cov)
        cov.update({
            "obligations": nob, "discharged": ndis, "checker_cmd": checker_cmd,
            "trusted_base": trusted_base,
            "obligation_list": [{"name": n, "ok": ok, **({"detail": d} if d else {})} for n, ok, d in self.obligations],
            "axioms_per_theorem": self.axioms,
            "tree": tree_id(),
        })
        cov["samples"] = cov["samples"][:12] or ["(no engine samples)"]
        cov["rule"] = cov["rule"].strip()
        if cov["distinct_nontrivial"] < 2 and cov["evaluations"] == 0:
            cov.pop("evaluations"); cov.pop("distinct_nontrivial")
        ev = {"property_id": self.pid, "tier": self.tier, "seed": self.seed, "level": "proof",
              "coverage": cov, "assumptions": level_assumptions, "wall_s": round(wall, 2),
              "violations": len(self.breaks) + len(self.monitor),
              "known_findings_replayed": [k["class"] for k, _ in self.known_hit]}
        os.makedirs(os.path.join(VERIF, "evidence"), exist_ok=True)
        json.dump(ev, open(os.path.join(VERIF, "evidence", self.pid + ".json"), "w"), indent=1)
        for k, mf in self.known_hit:
            print("KNOWN-FINDING: property=%s %s [class=%s]" % (self.pid, k["text"], k["class"]))
        if not viol:
            print("OK property=%s tier=%s obligations=%d/%d evaluations=%d wall=%.1fs" % (self.pid, self.tier, ndis, nob, self.cov["evaluations"], wall))
            return 0
        os.makedirs(os.path.join(VERIF, "replays"), exist_ok=True)
        rp = os.path.join(VERIF, "replays", "%s-%s-%d.json" % (self.pid, self.tier, self.seed))
        replay = {"property": self.pid, "tier": self.tier, "seed": self.seed, "tree": tree_id(),
                  "replay_cmd": "VERIF_SEED=%d ./check %s --tier %s" % (self.seed, self.pid, self.tier),
                  "failing_inputs": self.monitor[:10], "broken": self.breaks[:10]}
        json.dump(replay, open(rp, "w"), indent=1)
        rel = os.path.relpath(rp, VERIF)
        if self.monitor:
            print("VIOLATION property=%s replay=%s" % (self.pid, rel))
            print("  failing input (%s): %s" % (self.monitor[0]["class"], json.dumps(self.monitor[0])[:600]))
        else:
            names = ", ".join("%s:%s" % (b["kind"], b["name"]) for b in self.breaks[:4])
            print("  no longer checks: %s" % names)
            print("VIOLATION property=%s replay=%s no-failing-input-found" % (self.pid, rel))
        return 1
