#!/bin/bash
# usage: seedconfirm.sh <ID> [pkg patterns for the baseline comparison ...]
# Confirms a seeded change in its scratch worktree /tmp/seed_<ID>: builds, the demo fails with the
# change and passes without it, and the stable baseline tests of the given packages still pass.
ID=$1; shift; W=/tmp/${SEEDPFX:-seed}_$ID; S=$W/_seed
export GOFLAGS=-mod=mod GOPROXY=off
cd $W || exit 2
git apply -R --check $S/patch.diff 2>/dev/null || { echo "patch is not the applied state"; git status --short | head; }
DEMO=$(cat $S/demo_cmd.txt | grep -m1 -o "go test[^\`]*\|go run[^\`]*" | head -1)
echo "demo command: $DEMO"
echo "--- build with change"; go build ./... && echo BUILD-OK
echo "--- demo with change (must FAIL)"; (eval "$DEMO" 2>&1 | tail -4); 
git apply -R $S/patch.diff
echo "--- demo without change (must PASS)"; (eval "$DEMO" 2>&1 | tail -3)
git apply $S/patch.diff
echo "--- baseline (stable tests) with change"
python3 - "$@" <<'PY'
import json, subprocess, sys, os
pk = sys.argv[1:] or ["./..."]
p = subprocess.run(["go","test","-json","-vet=off","-count=1","-timeout","25m"]+pk, cwd=os.getcwd(), stdout=subprocess.PIPE, stderr=subprocess.DEVNULL, text=True)
res={}
for line in p.stdout.splitlines():
    try: e=json.loads(line)
    except Exception: continue
    if e.get("Test") and e.get("Action") in ("pass","fail","skip"): res[e["Package"]+"::"+e["Test"]]=e["Action"]
stable=json.load(open("/root/.vp/BASELINE.json"))["stable_pass"]
pkgs=set(k.split("::")[0] for k in res)
bad=[t for t in stable if t.split("::")[0] in pkgs and res.get(t)!="pass"]
print("packages:",len(pkgs),"stable tests there:",sum(1 for t in stable if t.split("::")[0] in pkgs),"not passing:",bad)
PY
