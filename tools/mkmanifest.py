#!/usr/bin/env python3
"""Regenerate MANIFEST.json from tools/props.py (the registry of built checks)."""
import json, os, sys
sys.path.insert(0, os.path.dirname(os.path.abspath(__file__)))
from props import PROPS
V = os.path.dirname(os.path.dirname(os.path.abspath(__file__)))
props = [json.loads(l) for l in open(os.path.join(V, "properties.jsonl"))]
hooks_file = os.path.join(V, "MANIFEST.hooks")
commits = []
if os.path.exists(hooks_file):
    for line in open(hooks_file):
        line = line.strip()
        if line and not line.startswith("#"):
            commits.append(line.split()[0])
checks, na = [], []
for p in props:
    pid = p["id"]
    cfg = PROPS.get(pid)
    if not cfg or cfg.get("disabled"):
        na.append({"property_id": pid, "reason": (cfg or {}).get("na_reason", "check not built yet (work in progress; DESIGN.md section 9 gives the order); the technique applies and the design is in DESIGN.md section 5")})
        continue
    checks.append({
        "property_id": pid,
        "quick_cmd": "./check %s --tier quick" % pid,
        "thorough_cmd": "./check %s --tier thorough" % pid,
        "evidence_file": "/verif/evidence/%s.json" % pid,
        "replay_cmd_template": "./check %s --replay {path}" % pid,
        "engine": ",".join(e[0] for e in cfg.get("engines", [])) or "coq",
        "level_claimed": {"category": "proof", "text": cfg["level_text"], "design_ref": "DESIGN.md section 5, " + pid},
        "level_note": cfg["level_note"],
        "technique": cfg.get("technique", "machine-checked proof in Coq 8.16.1 over an executable Gallina model; model tied to /repo by translator-generated definitions and a differential correspondence check evaluated with vm_compute"),
    })
m = {"version": 1,
     "setup_cmd": "./check --setup",
     "hooks": {"guard": "verif", "enable": "go build -tags 'verif conn_insecure' (harness module harness/ with replace => /repo)",
               "baseline_off_cmd": "cd /repo && go test -vet=off -count=1 -timeout 25m ./...",
               "source_commits": commits, "add_only": True},
     "engines": [{"name": "zzv", "path": "harness/cmd/zzv", "serves_properties": [c["property_id"] for c in checks],
                  "kind_free_text": "Go binary built from /repo's working tree: translator (extract) + differential engines that run the real code and emit Coq case files"},
                 {"name": "coq", "path": "coq", "serves_properties": [c["property_id"] for c in checks],
                  "kind_free_text": "Coq 8.16.1 development: Model/ (executable), Proofs/, Props/ (property theorems), Gen/ (regenerated), Corr/ (case evaluators)"}],
     "checks": checks, "not_applicable": na,
     "notes": "All checks: ./check <ID> --tier quick|thorough. Seeds via VERIF_SEED. Known findings in known_findings.txt. See DESIGN.md."}
json.dump(m, open(os.path.join(V, "MANIFEST.json"), "w"), indent=1)
print("checks:", len(checks), "not_applicable:", len(na))
