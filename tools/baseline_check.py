#!/usr/bin/env python3
"""Run the repository's tests (guard off) and compare with BASELINE.json's stable_pass list.
usage: baseline_check.py [pkg patterns...]   (default ./...)"""
import json, subprocess, sys, os
pk = sys.argv[1:] or ["./..."]
env = dict(os.environ, GOFLAGS="-mod=mod", GOPROXY="off")
p = subprocess.run(["go", "test", "-json", "-vet=off", "-count=1", "-timeout", "25m"] + pk, cwd="/repo", env=env,
                   stdout=subprocess.PIPE, stderr=subprocess.DEVNULL, text=True)
res = {}
for line in p.stdout.splitlines():
    try:
        e = json.loads(line)
    except Exception:
        continue
    if e.get("Test") and e.get("Action") in ("pass", "fail", "skip"):
        res[e["Package"] + "::" + e["Test"]] = e["Action"]
stable = json.load(open("/root/.vp/BASELINE.json"))["stable_pass"]
pkgs = set(k.split("::")[0] for k in res)
bad = [t for t in stable if t.split("::")[0] in pkgs and res.get(t) != "pass"]
print("packages run:", len(pkgs), "tests seen:", len(res), "stable tests in those packages:", sum(1 for t in stable if t.split("::")[0] in pkgs))
print("stable tests not passing:", bad)
sys.exit(1 if bad else 0)
