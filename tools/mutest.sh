#!/bin/bash
# usage: mutest.sh <name> <sed-script-or-patch> <file-rel> <cmd(dev_xxx)> <engine> [seed]
# Applies a mutation to a scratch copy of /repo, builds the harness against it, runs one engine and
# evaluates its case files: prints the Coq mismatches and the monitor failures. Nothing in /repo changes.
set -e
NAME=$1; SED=$2; FILE=$3; CMD=$4; ENG=$5; SEED=${6:-1}
R=/tmp/mut_${NAME}_repo; H=/tmp/mut_${NAME}_h; O=/tmp/mut_${NAME}_out
rm -rf $R $H $O; mkdir -p $O
rsync -a --exclude .git /repo/ $R/
sed -i "$SED" $R/$FILE
if diff -q /repo/$FILE $R/$FILE >/dev/null; then echo "MUTATION DID NOT APPLY"; rm -rf $R $H $O; exit 2; fi
diff /repo/$FILE $R/$FILE | head -10 || true
rsync -a /verif/harness/ $H/
cd $H && sed -i "s#=> /repo#=> $R#" go.mod && cp $R/go.sum . 
export GOFLAGS=-mod=mod GOPROXY=off
(cd $R && go build ./... ) || { echo "MUTANT DOES NOT COMPILE"; rm -rf $R $H $O; exit 3; }
go build -tags "verif conn_insecure" -o $O/zzv ./cmd/$CMD
$O/zzv extract -repo $R -out $O/Gen >/dev/null 2>&1 || echo "extract failed (T-break)"
if ! diff -rq $O/Gen /verif/coq/Gen >/dev/null 2>&1; then echo "GEN DIFFERS:"; diff -r $O/Gen /verif/coq/Gen | head -20; fi
$O/zzv $ENG -out $O -seed $SEED -tier quick -repo $R
cd $O
for f in cases_${ENG}_*.v; do coqc -R /verif/coq DV -Q . Cases $f 2>&1 | grep -A3 "M =" | tr '\n' ' '; echo; done
python3 - <<PY
import json
r=json.load(open('$O/$ENG.json'))
mf=r.get('monitor_failures') or []
print('monitor failures:', len(mf))
seen=set()
for m in mf:
    if m['class'] not in seen:
        seen.add(m['class']); print('  ', m['class'], '-', m['what'])
PY
rm -rf $R $H $O
