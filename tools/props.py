"""Registry of built checks: one module per property under tools/propcfg/ defining CFG."""
import glob, importlib, os
PROPS = {}
for f in sorted(glob.glob(os.path.join(os.path.dirname(os.path.abspath(__file__)), "propcfg", "C*.py"))):
    name = os.path.basename(f)[:-3]
    PROPS[name] = importlib.import_module("propcfg." + name).CFG
