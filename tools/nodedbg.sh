#!/bin/bash
# usage: nodedbg.sh <casesdir> <file-without-.v> <index>   -- prints the first harness event of a node case that no admissible order explains
cd "$1" && cat > dbg.v <<EOT
From Coq Require Import ZArith List. Import ListNotations.
From DV Require Import Model.Node Corr.NodeCorr.
Require Import Cases.$2.
Open Scope Z_scope.
Definition c := nth $3 cases (nth 0 cases (mkNC true 0 0 0 0 0 (mkG 0 0 [] 0) [] [] [] [] [] [] [])).
Definition d := Eval vm_compute in first_diff c.
Print d.
Definition sts := states_at (case_step c) (Z.to_nat d) [init (nc_now0 c) (nc_seed c) (nc_grp c)] (nc_events c) (nc_obs c).
Eval vm_compute in (nth (Z.to_nat d) (nc_events c) [], map (fun st => map (fun a => snd (run_group (case_step c) st a)) (nth (Z.to_nat d) (nc_events c) [])) sts, nth (Z.to_nat d) (nc_obs c) (false,[],[])).
Eval vm_compute in (nc_chained c, nc_period c, nc_catchup c, nc_grp c, sts, firstn (Z.to_nat d + 1) (map (fun a => hd [] a) (nc_events c))).
EOT
coqc -R /verif/coq DV -Q . Cases dbg.v 2>&1 | tail -n +1
