#!/bin/bash
# usage: seedrun.sh <patch.diff|-> <ID> [ID...]
# Runs the registered quick checks of the given properties against a scratch copy of /repo with
# the patch applied ("-" = no patch), using a scratch copy of /verif, so that neither /repo nor
# /verif/evidence is touched. Prints each check's last lines.
PATCH=$1; shift
T=$(mktemp -d /tmp/sr_XXXXXX)
rsync -a --exclude .git /repo/ $T/repo/
if [ "$PATCH" != "-" ]; then (cd $T/repo && git init -q . >/dev/null 2>&1; git apply --whitespace=nowarn $PATCH) || { echo "PATCH DOES NOT APPLY"; rm -rf $T; exit 2; }; fi
rsync -a --exclude .git --exclude .build/cases --exclude replays /verif/ $T/verif/
sed -i "s#=> /repo#=> $T/repo#" $T/verif/harness/go.mod
cd $T/verif
export VERIF_REPO=$T/repo
for id in "$@"; do
  echo "=== $id"
  timeout 1500 ./check $id --tier quick 2>&1 | cut -c1-400 | tail -6
done
cd /; rm -rf $T
